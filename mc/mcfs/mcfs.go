// Package mcfs is the model-checking filesystem: an inode-based in-memory
// POSIX-like tree ("World") exposing billy.Filesystem views, with a journal of
// every call, a Before-hook (scheduling point / fault injection / crash),
// flock semantics on inodes, deterministic temp names and a logical clock,
// deep clones, canonical hashes, journal replay, and export/import to real
// directories.
package mcfs

import (
	"crypto/sha256"
	"encoding/hex"
	"errors"
	"fmt"
	"io"
	"io/fs"
	"os"
	"path"
	"sort"
	"strings"
	"sync"
	"syscall"
	"time"

	"github.com/go-git/go-billy/v6"
)

type kind uint8

const (
	kFile kind = iota
	kDir
	kLink
)

type inode struct {
	ino      int
	kind     kind
	data     []byte
	children map[string]*inode
	target   string
	mode     fs.FileMode // permission bits
	mtime    int64       // logical ticks
	nlink    int
	opened   int  // times opened for writing after first close (write-once tracking)
	wclosed  bool // a writing handle has been closed at least once
	rewritten bool // opened for writing again after wclosed => not write-once
}

// Op describes one filesystem call (journal record and hook argument).
type Op struct {
	Seq      int
	Thread   int    // filled by the hook owner (scheduler); -1 = unknown
	View     string // id of the view the call was made through
	Kind     string // open create mkdir write read truncate rename remove symlink readlink stat lstat readdir chmod flock funlock close
	Path     string // resolved absolute world path (after symlink resolution of the parent chain and, for following ops, the leaf)
	Path2    string // rename target / symlink target text
	Req      string // path as requested (view-relative)
	Ino      int
	Off      int64
	Data     []byte // write payload (mutating replay)
	Size     int64
	Flag     int
	Mode     fs.FileMode
	Mutating bool
	Err      string
	// Enabled, when non-nil, tells a scheduler whether the op can proceed now
	// (flock on a held lock is disabled).
	Enabled func() bool `json:"-"`
	// Torn: when a crash hook wants a torn write it sets Keep>=0 to the number
	// of payload bytes that reach the file before the world stops.
	handle *file
}

func (o *Op) String() string {
	s := fmt.Sprintf("%s %s", o.Kind, o.Path)
	if o.Path2 != "" {
		s += " -> " + o.Path2
	}
	if o.Kind == "write" {
		s += fmt.Sprintf(" @%d+%d", o.Off, len(o.Data))
	}
	return s
}

// Hook is called before every op. A non-nil error makes the op fail with it.
type Hook func(op *Op) error

// ErrWouldBlock is returned by Lock when no scheduler is present and the lock is held.
var ErrWouldBlock = errors.New("mcfs: flock would block (no scheduler present)")

// World is one filesystem tree shared by all views.
type World struct {
	mu       sync.Mutex
	root     *inode
	nextIno  int
	clock    int64
	ClockStep int64 // ticks added per mutating op (0 = frozen clock)
	tmpSeq   int
	seq      int
	journal  []*Op
	hook     Hook
	JournalReads bool
	locks    map[*inode]*file
	BaseTime int64 // unix seconds of tick 0
	nextViewID int
	StrictWriteOnce bool
}

func NewWorld() *World {
	w := &World{ClockStep: 1, locks: map[*inode]*file{}, BaseTime: 1_600_000_000}
	w.root = w.newInode(kDir, 0o755)
	return w
}

func (w *World) newInode(k kind, mode fs.FileMode) *inode {
	w.nextIno++
	n := &inode{ino: w.nextIno, kind: k, mode: mode, mtime: w.clock, nlink: 1}
	if k == kDir {
		n.children = map[string]*inode{}
	}
	return n
}

func (w *World) SetHook(h Hook) { w.mu.Lock(); w.hook = h; w.mu.Unlock() }

// Journal returns the recorded ops (mutating ones always; reads if JournalReads).
func (w *World) Journal() []*Op { w.mu.Lock(); defer w.mu.Unlock(); return append([]*Op{}, w.journal...) }
func (w *World) ResetJournal()  { w.mu.Lock(); w.journal = nil; w.mu.Unlock() }

// Clone returns a deep copy (same inode numbers, clock and temp counter; no
// hook, empty journal, no locks, no open handles).
func (w *World) Clone() *World {
	w.mu.Lock()
	defer w.mu.Unlock()
	c := &World{nextIno: w.nextIno, clock: w.clock, ClockStep: w.ClockStep, tmpSeq: w.tmpSeq,
		locks: map[*inode]*file{}, BaseTime: w.BaseTime, JournalReads: w.JournalReads}
	seen := map[*inode]*inode{}
	var cp func(n *inode) *inode
	cp = func(n *inode) *inode {
		if m, ok := seen[n]; ok {
			return m
		}
		m := &inode{ino: n.ino, kind: n.kind, target: n.target, mode: n.mode, mtime: n.mtime, nlink: n.nlink,
			wclosed: n.wclosed, rewritten: n.rewritten}
		seen[n] = m
		if n.data != nil {
			m.data = append([]byte{}, n.data...)
		}
		if n.children != nil {
			m.children = make(map[string]*inode, len(n.children))
			for k, v := range n.children {
				m.children[k] = cp(v)
			}
		}
		return m
	}
	c.root = cp(w.root)
	return c
}

// Hash is a canonical digest of the tree under abs (names, kinds, bytes, exec
// bit, link targets); mtimes and inode numbers are not included.
func (w *World) Hash(abs string) string {
	w.mu.Lock()
	defer w.mu.Unlock()
	h := sha256.New()
	n, _, err := w.walk(abs, true)
	if err != nil || n == nil {
		return "absent"
	}
	var rec func(p string, n *inode)
	rec = func(p string, n *inode) {
		switch n.kind {
		case kFile:
			x := 0
			if n.mode&0o100 != 0 {
				x = 1
			}
			fmt.Fprintf(h, "F %q %d %d\n", p, x, len(n.data))
			h.Write(n.data)
		case kLink:
			fmt.Fprintf(h, "L %q %q\n", p, n.target)
		case kDir:
			fmt.Fprintf(h, "D %q\n", p)
			names := make([]string, 0, len(n.children))
			for k := range n.children {
				names = append(names, k)
			}
			sort.Strings(names)
			for _, k := range names {
				rec(p+"/"+k, n.children[k])
			}
		}
	}
	rec("", n)
	return hex.EncodeToString(h.Sum(nil)[:12])
}

func perr(op, p string, e error) error { return &os.PathError{Op: op, Path: p, Err: e} }

func split(abs string) []string {
	abs = path.Clean("/" + abs)
	if abs == "/" {
		return nil
	}
	return strings.Split(abs[1:], "/")
}

// walk resolves abs (world-absolute) to an inode, following symlinks in all
// intermediate components and, if followLeaf, in the leaf. It returns the
// inode and its resolved absolute path. Unconfined: absolute link targets are
// world-absolute, ".." walks up to the world root.
func (w *World) walk(abs string, followLeaf bool) (*inode, string, error) {
	n, p, _, _, err := w.walkParent(abs, followLeaf, 0)
	return n, p, err
}

// walkParent returns (node or nil if leaf missing, resolved path, parent inode, leaf name).
func (w *World) walkParent(abs string, followLeaf bool, depth int) (*inode, string, *inode, string, error) {
	if depth > 40 {
		return nil, abs, nil, "", syscall.ELOOP
	}
	comps := split(abs)
	cur := w.root
	curPath := ""
	if len(comps) == 0 {
		return w.root, "/", nil, "", nil
	}
	for i, c := range comps {
		last := i == len(comps)-1
		if cur.kind != kDir {
			return nil, curPath + "/" + c, nil, "", syscall.ENOTDIR
		}
		ch, ok := cur.children[c]
		if !ok {
			if last {
				return nil, curPath + "/" + c, cur, c, nil
			}
			return nil, curPath + "/" + c, nil, "", syscall.ENOENT
		}
		if ch.kind == kLink && (!last || followLeaf) {
			t := ch.target
			var np string
			if strings.HasPrefix(t, "/") {
				np = t
			} else {
				np = curPath + "/" + t
			}
			rest := strings.Join(comps[i+1:], "/")
			if rest != "" {
				np = np + "/" + rest
			}
			// path.Clean resolves ".." lexically; that equals physical resolution here because every prefix component
			// before the link was already resolved (curPath is physical).
			return w.walkParent(cleanPhysical(np), followLeaf, depth+1)
		}
		if last {
			return ch, curPath + "/" + c, cur, c, nil
		}
		cur = ch
		curPath = curPath + "/" + c
	}
	return cur, curPath, nil, "", nil
}

// cleanPhysical cleans a path whose ".." components follow only physical
// (already resolved) components or a link target. A link target containing
// "x/.." where x is itself a symlink is resolved lexically (a documented
// simplification: no check builds such targets).
func cleanPhysical(p string) string { return path.Clean("/" + p) }

func (w *World) tick(n *inode) {
	w.clock += w.ClockStep
	if n != nil {
		n.mtime = w.clock
	}
}

func (w *World) rec(op *Op) {
	op.Seq = w.seq
	w.seq++
	if op.Mutating || w.JournalReads {
		w.journal = append(w.journal, op)
	}
}

// before runs the hook outside the world lock.
func (w *World) before(op *Op) error {
	w.mu.Lock()
	h := w.hook
	w.mu.Unlock()
	op.Thread = -1
	if h != nil {
		if err := h(op); err != nil {
			op.Err = err.Error()
			w.mu.Lock()
			w.rec(op)
			w.mu.Unlock()
			return err
		}
	} else if op.Enabled != nil && !op.Enabled() {
		return ErrWouldBlock
	}
	return nil
}

// ---------------------------------------------------------------- views

// View is a billy.Filesystem rooted at a world directory.
type View struct {
	w    *World
	root string // world-absolute, clean
	ID   string
}

var _ billy.Filesystem = (*View)(nil)
var _ billy.Chmod = (*View)(nil)
var _ billy.Capable = (*View)(nil)

// View returns a filesystem rooted at abs (created if missing, unjournaled).
func (w *World) View(abs, id string) *View {
	abs = path.Clean("/" + abs)
	w.mu.Lock()
	w.mkdirAllLocked(abs, nil)
	w.mu.Unlock()
	return &View{w: w, root: abs, ID: id}
}

func (v *View) World() *World { return v.w }
func (v *View) Capabilities() billy.Capability { return billy.DefaultCapabilities }
func (v *View) Root() string                   { return v.root }
func (v *View) Join(elem ...string) string     { return path.Join(elem...) }

// abs maps a view path to a world path (lexically confined, like chroot helpers).
func (v *View) abs(name string) string {
	return path.Join(v.root, path.Clean("/"+name))
}

func (v *View) Chroot(p string) (billy.Filesystem, error) {
	a := v.abs(p)
	v.w.mu.Lock()
	n, _, err := v.w.walk(a, true)
	if err == nil && n == nil {
		v.w.mu.Unlock()
		if err := v.MkdirAll(p, 0o755); err != nil {
			return nil, err
		}
		v.w.mu.Lock()
	}
	v.w.nextViewID++
	id := fmt.Sprintf("%s/chroot:%s", v.ID, path.Clean("/"+p))
	v.w.mu.Unlock()
	return &View{w: v.w, root: a, ID: id}, nil
}

func (v *View) op(kind, name string) *Op {
	return &Op{View: v.ID, Kind: kind, Req: name, Path: v.abs(name)}
}

func (v *View) Create(name string) (billy.File, error) {
	return v.OpenFile(name, os.O_RDWR|os.O_CREATE|os.O_TRUNC, 0o666)
}
func (v *View) Open(name string) (billy.File, error) { return v.OpenFile(name, os.O_RDONLY, 0) }

func (v *View) OpenFile(name string, flag int, perm fs.FileMode) (billy.File, error) {
	w := v.w
	a := v.abs(name)
	if flag&os.O_CREATE != 0 {
		if err := v.mkdirAllAbs(path.Dir(a), name, false); err != nil {
			return nil, err
		}
	}
	op := v.op("open", name)
	op.Flag = flag
	op.Mode = perm
	// resolve for the hook's benefit
	w.mu.Lock()
	n, rp, _, _, werr := w.walkParent(a, true, 0)
	op.Path = rp
	willCreate := werr == nil && n == nil && flag&os.O_CREATE != 0
	willTrunc := werr == nil && n != nil && n.kind == kFile && flag&os.O_TRUNC != 0 && len(n.data) > 0
	op.Mutating = willCreate || willTrunc
	if willCreate {
		op.Kind = "create"
	} else if willTrunc {
		op.Kind = "open-trunc"
	}
	w.mu.Unlock()
	if err := w.before(op); err != nil {
		return nil, perr("open", name, err)
	}
	w.mu.Lock()
	defer w.mu.Unlock()
	n, rp, parent, leaf, werr := w.walkParent(a, true, 0)
	op.Path = rp
	if werr != nil {
		op.Err = werr.Error()
		w.rec(op)
		return nil, perr("open", name, werr)
	}
	if n == nil {
		if flag&os.O_CREATE == 0 {
			op.Err = "ENOENT"
			op.Mutating = false
			w.rec(op)
			return nil, perr("open", name, syscall.ENOENT)
		}
		n = w.newInode(kFile, perm&0o777&^0o022)
		parent.children[leaf] = n
		w.tick(n)
		parent.mtime = w.clock
		op.Mutating = true
		op.Kind = "create"
	} else {
		if flag&os.O_CREATE != 0 && flag&os.O_EXCL != 0 {
			op.Err = "EEXIST"
			op.Mutating = false
			w.rec(op)
			return nil, perr("open", name, syscall.EEXIST)
		}
		if n.kind == kDir && flag&(os.O_WRONLY|os.O_RDWR) != 0 {
			op.Err = "EISDIR"
			op.Mutating = false
			w.rec(op)
			return nil, perr("open", name, syscall.EISDIR)
		}
		if n.kind == kFile && flag&os.O_TRUNC != 0 && flag&(os.O_WRONLY|os.O_RDWR) != 0 {
			if len(n.data) > 0 {
				op.Mutating = true
				op.Kind = "open-trunc"
			}
			n.data = nil
			w.tick(n)
		}
	}
	op.Ino = n.ino
	writable := flag&(os.O_WRONLY|os.O_RDWR) != 0
	// The read reduction (see DESIGN E1) is static by location: object files
	// (packs, idx, rev, loose objects) are write-once in go-git. If that is
	// ever not true the exploration would be unsound, so it is a hard error.
	reduce := strings.Contains(rp, "/objects/") && !strings.Contains(rp, "/objects/info/")
	if writable && n.wclosed {
		n.rewritten = true
		if reduce && n.kind == kFile && w.StrictWriteOnce {
			panic("mcfs: write-once assumption violated: " + rp + " reopened for writing")
		}
	}
	w.rec(op)
	return &file{v: v, n: n, name: name, flag: flag, writable: writable, readable: flag&os.O_WRONLY == 0, reduce: reduce}, nil
}

func (v *View) mkdirAllAbs(a, req string, direct bool) error {
	w := v.w
	w.mu.Lock()
	n, _, err := w.walk(a, true)
	w.mu.Unlock()
	if err == nil && n != nil && n.kind == kDir {
		return nil
	}
	// create missing components one by one (each is a journaled op / crash point)
	comps := split(a)
	cur := ""
	for ci, c := range comps {
		cur = cur + "/" + c
		w.mu.Lock()
		n, rp, _, _, err := w.walkParent(cur, true, 0)
		w.mu.Unlock()
		if err != nil {
			return perr("mkdir", req, err)
		}
		if n != nil {
			if n.kind != kDir {
				if ci == len(comps)-1 && direct {
					return perr("mkdir", req, syscall.EEXIST)
				}
				return perr("mkdir", req, syscall.ENOTDIR)
			}
			continue
		}
		op := &Op{View: v.ID, Kind: "mkdir", Req: req, Path: rp, Mutating: true}
		if err := w.before(op); err != nil {
			return perr("mkdir", req, err)
		}
		w.mu.Lock()
		n, rp, parent, leaf, err := w.walkParent(cur, true, 0)
		if err == nil && n == nil {
			d := w.newInode(kDir, 0o755)
			parent.children[leaf] = d
			w.tick(d)
			parent.mtime = w.clock
			op.Ino = d.ino
			op.Path = rp
			w.rec(op)
		} else if err != nil {
			w.mu.Unlock()
			return perr("mkdir", req, err)
		}
		w.mu.Unlock()
	}
	return nil
}

// mkdirAllLocked is the unjournaled set-up variant.
func (w *World) mkdirAllLocked(a string, _ any) {
	comps := split(a)
	cur := w.root
	for _, c := range comps {
		ch, ok := cur.children[c]
		if !ok {
			ch = w.newInode(kDir, 0o755)
			cur.children[c] = ch
		}
		if ch.kind == kLink {
			n, _, err := w.walk(ch.target, true)
			if err != nil || n == nil {
				return
			}
			ch = n
		}
		cur = ch
	}
}

func (v *View) MkdirAll(name string, perm fs.FileMode) error {
	return v.mkdirAllAbs(v.abs(name), name, true)
}

type info struct {
	name  string
	size  int64
	mode  fs.FileMode
	mtime time.Time
	ino   int
}

func (i info) Name() string       { return i.name }
func (i info) Size() int64        { return i.size }
func (i info) Mode() fs.FileMode  { return i.mode }
func (i info) ModTime() time.Time { return i.mtime }
func (i info) IsDir() bool        { return i.mode.IsDir() }
func (i info) Sys() any           { return nil }
func (i info) Type() fs.FileMode  { return i.mode.Type() }
func (i info) Info() (fs.FileInfo, error) { return i, nil }

func (w *World) infoOf(name string, n *inode) info {
	m := n.mode
	var size int64
	switch n.kind {
	case kDir:
		m |= fs.ModeDir
	case kLink:
		m = fs.ModeSymlink | 0o777
		size = int64(len(n.target))
	default:
		size = int64(len(n.data))
	}
	return info{name: name, size: size, mode: m, mtime: time.Unix(w.BaseTime+n.mtime, 0), ino: n.ino}
}

func (v *View) stat(name string, follow bool) (fs.FileInfo, error) {
	k := "lstat"
	if follow {
		k = "stat"
	}
	op := v.op(k, name)
	if err := v.w.before(op); err != nil {
		return nil, perr(k, name, err)
	}
	w := v.w
	w.mu.Lock()
	defer w.mu.Unlock()
	n, rp, err := w.walk(v.abs(name), follow)
	op.Path = rp
	if err == nil && n == nil {
		err = syscall.ENOENT
	}
	if err != nil {
		op.Err = err.Error()
		w.rec(op)
		return nil, perr(k, name, err)
	}
	op.Ino = n.ino
	w.rec(op)
	return w.infoOf(path.Base(path.Clean("/"+name)), n), nil
}

func (v *View) Stat(name string) (fs.FileInfo, error)  { return v.stat(name, true) }
func (v *View) Lstat(name string) (fs.FileInfo, error) { return v.stat(name, false) }

func (v *View) ReadDir(name string) ([]fs.DirEntry, error) {
	op := v.op("readdir", name)
	if err := v.w.before(op); err != nil {
		return nil, perr("readdir", name, err)
	}
	w := v.w
	w.mu.Lock()
	defer w.mu.Unlock()
	n, rp, err := w.walk(v.abs(name), true)
	op.Path = rp
	if err == nil && n == nil {
		err = syscall.ENOENT
	}
	if err == nil && n.kind != kDir {
		err = syscall.ENOTDIR
	}
	if err != nil {
		op.Err = err.Error()
		w.rec(op)
		return nil, perr("readdir", name, err)
	}
	names := make([]string, 0, len(n.children))
	for k := range n.children {
		names = append(names, k)
	}
	sort.Strings(names)
	out := make([]fs.DirEntry, 0, len(names))
	for _, k := range names {
		out = append(out, w.infoOf(k, n.children[k]))
	}
	w.rec(op)
	return out, nil
}

func (v *View) Rename(from, to string) error {
	w := v.w
	if path.Clean("/"+from) == "/" {
		return billy.ErrBaseDirCannotBeRenamed
	}
	at := v.abs(to)
	if err := v.mkdirAllAbs(path.Dir(at), to, false); err != nil {
		return err
	}
	op := v.op("rename", from)
	op.Mutating = true
	w.mu.Lock()
	_, rf, _, _, _ := w.walkParent(v.abs(from), false, 0)
	_, rt, _, _, _ := w.walkParent(at, false, 0)
	op.Path, op.Path2 = rf, rt
	w.mu.Unlock()
	if err := w.before(op); err != nil {
		return &os.LinkError{Op: "rename", Old: from, New: to, Err: err}
	}
	w.mu.Lock()
	defer w.mu.Unlock()
	err := w.renameLocked(v.abs(from), at, op)
	if err != nil {
		op.Err = err.Error()
		op.Mutating = false
		w.rec(op)
		return &os.LinkError{Op: "rename", Old: from, New: to, Err: err}
	}
	w.rec(op)
	return nil
}

func (w *World) renameLocked(af, at string, op *Op) error {
	n, rf, pf, lf, err := w.walkParent(af, false, 0)
	if err != nil {
		return err
	}
	if n == nil {
		return syscall.ENOENT
	}
	t, rt, pt, lt, err := w.walkParent(at, false, 0)
	if err != nil {
		return err
	}
	if pt == nil {
		return syscall.EINVAL
	}
	if op != nil {
		op.Path, op.Path2, op.Ino = rf, rt, n.ino
	}
	if t != nil {
		if t == n {
			return nil
		}
		if t.kind == kDir {
			return syscall.EEXIST // Go's os.Rename reports EEXIST whenever the target is an existing directory
		} else if n.kind == kDir {
			return syscall.ENOTDIR
		}
		t.nlink--
	}
	if n.kind == kDir && (rt == rf || strings.HasPrefix(rt, rf+"/")) {
		return syscall.EINVAL
	}
	delete(pf.children, lf)
	pt.children[lt] = n
	w.tick(nil)
	pf.mtime, pt.mtime = w.clock, w.clock
	return nil
}

func (v *View) Remove(name string) error {
	w := v.w
	if path.Clean("/"+name) == "/" {
		return billy.ErrBaseDirCannotBeRemoved
	}
	op := v.op("remove", name)
	op.Mutating = true
	w.mu.Lock()
	_, rp, _, _, _ := w.walkParent(v.abs(name), false, 0)
	op.Path = rp
	w.mu.Unlock()
	if err := w.before(op); err != nil {
		return perr("remove", name, err)
	}
	w.mu.Lock()
	defer w.mu.Unlock()
	n, rp, parent, leaf, err := w.walkParent(v.abs(name), false, 0)
	op.Path = rp
	if err == nil && n == nil {
		err = syscall.ENOENT
	}
	if err == nil && n.kind == kDir && len(n.children) > 0 {
		err = syscall.ENOTEMPTY
	}
	if err == nil && parent == nil {
		err = syscall.EBUSY
	}
	if err != nil {
		op.Err = err.Error()
		op.Mutating = false
		w.rec(op)
		return perr("remove", name, err)
	}
	op.Ino = n.ino
	delete(parent.children, leaf)
	n.nlink--
	w.tick(nil)
	parent.mtime = w.clock
	w.rec(op)
	return nil
}

func (v *View) Symlink(target, link string) error {
	w := v.w
	al := v.abs(link)
	if err := v.mkdirAllAbs(path.Dir(al), link, false); err != nil {
		return err
	}
	op := v.op("symlink", link)
	op.Path2 = target
	op.Mutating = true
	w.mu.Lock()
	_, rp, _, _, _ := w.walkParent(al, false, 0)
	op.Path = rp
	w.mu.Unlock()
	if err := w.before(op); err != nil {
		return &os.LinkError{Op: "symlink", Old: target, New: link, Err: err}
	}
	w.mu.Lock()
	defer w.mu.Unlock()
	n, rp, parent, leaf, err := w.walkParent(al, false, 0)
	op.Path = rp
	if err == nil && n != nil {
		err = syscall.EEXIST
	}
	if err != nil {
		op.Err = err.Error()
		op.Mutating = false
		w.rec(op)
		return &os.LinkError{Op: "symlink", Old: target, New: link, Err: err}
	}
	l := w.newInode(kLink, 0o777)
	l.target = target
	parent.children[leaf] = l
	w.tick(l)
	parent.mtime = w.clock
	op.Ino = l.ino
	w.rec(op)
	return nil
}

func (v *View) Readlink(link string) (string, error) {
	op := v.op("readlink", link)
	if err := v.w.before(op); err != nil {
		return "", perr("readlink", link, err)
	}
	w := v.w
	w.mu.Lock()
	defer w.mu.Unlock()
	n, rp, err := w.walk(v.abs(link), false)
	op.Path = rp
	if err == nil && n == nil {
		err = syscall.ENOENT
	}
	if err == nil && n.kind != kLink {
		err = syscall.EINVAL
	}
	if err != nil {
		op.Err = err.Error()
		w.rec(op)
		return "", perr("readlink", link, err)
	}
	w.rec(op)
	return n.target, nil
}

func (v *View) Chmod(name string, mode fs.FileMode) error {
	op := v.op("chmod", name)
	op.Mode = mode
	op.Mutating = true
	if err := v.w.before(op); err != nil {
		return perr("chmod", name, err)
	}
	w := v.w
	w.mu.Lock()
	defer w.mu.Unlock()
	n, rp, err := w.walk(v.abs(name), true)
	op.Path = rp
	if err == nil && n == nil {
		err = syscall.ENOENT
	}
	if err != nil {
		op.Err = err.Error()
		op.Mutating = false
		w.rec(op)
		return perr("chmod", name, err)
	}
	n.mode = mode & 0o777
	op.Ino = n.ino
	w.rec(op)
	return nil
}

func (v *View) TempFile(dir, prefix string) (billy.File, error) {
	if dir == "" {
		dir = ".tmp" // billy's util.TempFile default
	}
	for {
		v.w.mu.Lock()
		v.w.tmpSeq++
		name := path.Join(dir, fmt.Sprintf("%s%06d", prefix, v.w.tmpSeq))
		v.w.mu.Unlock()
		f, err := v.OpenFile(name, os.O_RDWR|os.O_CREATE|os.O_EXCL, 0o600)
		if err != nil && errors.Is(err, syscall.EEXIST) {
			continue
		}
		return f, err
	}
}

// ---------------------------------------------------------------- files

type file struct {
	v        *View
	n        *inode
	name     string
	flag     int
	pos      int64
	writable bool
	readable bool
	closed   bool
	locked   bool
	wrote    bool
	reduce   bool
}

var _ billy.File = (*file)(nil)
var _ billy.Locker = (*file)(nil)

func (f *file) Name() string { return f.name }

func (f *file) fop(kind string) *Op {
	return &Op{View: f.v.ID, Kind: kind, Req: f.name, Path: fmt.Sprintf("ino:%d(%s)", f.n.ino, f.name), Ino: f.n.ino, handle: f}
}

// WriteOnce reports whether reads through this handle can be reordered freely:
// the inode was never opened for writing again after its first writer closed.
func (f *file) writeOnceRead() bool { return f.reduce && f.n.wclosed && !f.writable }

func (f *file) Read(p []byte) (int, error) {
	n, err := f.readAt(p, f.pos, "read")
	f.pos += int64(n)
	return n, err
}

func (f *file) ReadAt(p []byte, off int64) (int, error) {
	n, err := f.readAt(p, off, "readat")
	if err == nil && n < len(p) {
		err = io.EOF
	}
	return n, err
}

func (f *file) readAt(p []byte, off int64, kind string) (int, error) {
	w := f.v.w
	if f.closed {
		return 0, os.ErrClosed
	}
	if !f.readable {
		return 0, perr("read", f.name, syscall.EBADF)
	}
	if f.n.kind == kDir {
		return 0, perr("read", f.name, syscall.EISDIR)
	}
	w.mu.Lock()
	wo := f.writeOnceRead()
	w.mu.Unlock()
	if !wo { // reads of write-once inodes commute with everything: not a point
		op := f.fop(kind)
		op.Off = off
		op.Size = int64(len(p))
		if err := w.before(op); err != nil {
			return 0, perr("read", f.name, err)
		}
	}
	w.mu.Lock()
	defer w.mu.Unlock()
	if off >= int64(len(f.n.data)) {
		if len(p) == 0 {
			return 0, nil
		}
		return 0, io.EOF
	}
	n := copy(p, f.n.data[off:])
	return n, nil
}

func (f *file) Write(p []byte) (int, error) {
	w := f.v.w
	w.mu.Lock()
	off := f.pos
	if f.flag&os.O_APPEND != 0 {
		off = int64(len(f.n.data))
	}
	w.mu.Unlock()
	n, err := f.writeAt(p, off, f.flag&os.O_APPEND != 0)
	if f.flag&os.O_APPEND != 0 {
		w.mu.Lock()
		f.pos = int64(len(f.n.data))
		w.mu.Unlock()
	} else {
		f.pos = off + int64(n)
	}
	return n, err
}

func (f *file) WriteAt(p []byte, off int64) (int, error) { return f.writeAt(p, off, false) }

func (f *file) writeAt(p []byte, off int64, appendMode bool) (int, error) {
	w := f.v.w
	if f.closed {
		return 0, os.ErrClosed
	}
	if !f.writable {
		return 0, perr("write", f.name, syscall.EBADF)
	}
	op := f.fop("write")
	op.Off = off
	op.Data = append([]byte{}, p...)
	op.Mutating = true
	if appendMode {
		op.Flag = os.O_APPEND
	}
	if err := w.before(op); err != nil {
		var sw *ShortWrite
		if errors.As(err, &sw) && sw.N < len(p) {
			w.mu.Lock()
			if appendMode {
				off = int64(len(f.n.data))
			}
			w.writeLocked(f.n, off, p[:sw.N])
			op.Data = op.Data[:sw.N]
			op.Off = off
			w.mu.Unlock()
			f.wrote = true
			return sw.N, perr("write", f.name, sw.Err)
		}
		return 0, perr("write", f.name, err)
	}
	w.mu.Lock()
	if appendMode {
		off = int64(len(f.n.data))
		op.Off = off
	}
	w.writeLocked(f.n, off, p)
	w.rec(op)
	w.mu.Unlock()
	f.wrote = true
	return len(p), nil
}

// ShortWrite can be returned by a hook for a write op: N bytes are written, then Err is returned.
type ShortWrite struct {
	N   int
	Err error
}

func (s *ShortWrite) Error() string { return fmt.Sprintf("short write (%d): %v", s.N, s.Err) }

func (w *World) writeLocked(n *inode, off int64, p []byte) {
	end := off + int64(len(p))
	if end > int64(len(n.data)) {
		nd := make([]byte, end)
		copy(nd, n.data)
		n.data = nd
	}
	copy(n.data[off:], p)
	w.tick(n)
}

func (f *file) Seek(offset int64, whence int) (int64, error) {
	if f.closed {
		return 0, os.ErrClosed
	}
	w := f.v.w
	w.mu.Lock()
	defer w.mu.Unlock()
	switch whence {
	case io.SeekStart:
		f.pos = offset
	case io.SeekCurrent:
		f.pos += offset
	case io.SeekEnd:
		f.pos = int64(len(f.n.data)) + offset
	}
	if f.pos < 0 {
		f.pos = 0
		return 0, perr("seek", f.name, syscall.EINVAL)
	}
	return f.pos, nil
}

func (f *file) Truncate(size int64) error {
	w := f.v.w
	if f.closed {
		return os.ErrClosed
	}
	if !f.writable {
		return perr("truncate", f.name, syscall.EINVAL)
	}
	op := f.fop("truncate")
	op.Size = size
	op.Mutating = true
	if err := w.before(op); err != nil {
		return perr("truncate", f.name, err)
	}
	w.mu.Lock()
	defer w.mu.Unlock()
	if size < int64(len(f.n.data)) {
		f.n.data = append([]byte{}, f.n.data[:size]...)
	} else if size > int64(len(f.n.data)) {
		nd := make([]byte, size)
		copy(nd, f.n.data)
		f.n.data = nd
	}
	w.tick(f.n)
	w.rec(op)
	return nil
}

func (f *file) Stat() (fs.FileInfo, error) {
	if f.closed {
		return nil, os.ErrClosed
	}
	w := f.v.w
	op := f.fop("fstat")
	if err := w.before(op); err != nil {
		return nil, perr("stat", f.name, err)
	}
	w.mu.Lock()
	defer w.mu.Unlock()
	return w.infoOf(path.Base(f.name), f.n), nil
}

func (f *file) Close() error {
	if f.closed {
		return os.ErrClosed
	}
	w := f.v.w
	op := f.fop("close")
	if f.locked || f.writable {
		// closing a writable or locked handle is visible to others (lock release); make it a point
		if err := w.before(op); err != nil {
			// a failing close still closes
			w.mu.Lock()
			f.closeLocked()
			w.mu.Unlock()
			return perr("close", f.name, err)
		}
	}
	w.mu.Lock()
	f.closeLocked()
	w.mu.Unlock()
	return nil
}

func (f *file) closeLocked() {
	w := f.v.w
	f.closed = true
	if f.locked {
		if w.locks[f.n] == f {
			delete(w.locks, f.n)
		}
		f.locked = false
	}
	if f.writable {
		f.n.wclosed = true
	}
}

func (f *file) Lock() error {
	w := f.v.w
	if f.closed {
		return os.ErrClosed
	}
	op := f.fop("flock")
	op.Enabled = func() bool {
		w.mu.Lock()
		defer w.mu.Unlock()
		h := w.locks[f.n]
		return h == nil || h == f
	}
	if err := w.before(op); err != nil {
		return err
	}
	w.mu.Lock()
	defer w.mu.Unlock()
	if h := w.locks[f.n]; h != nil && h != f {
		return ErrWouldBlock // hook let us through although disabled
	}
	w.locks[f.n] = f
	f.locked = true
	return nil
}

func (f *file) Unlock() error {
	w := f.v.w
	op := f.fop("funlock")
	if err := w.before(op); err != nil {
		return err
	}
	w.mu.Lock()
	defer w.mu.Unlock()
	if w.locks[f.n] == f {
		delete(w.locks, f.n)
	}
	f.locked = false
	return nil
}

package mcfs

import (
	"fmt"
	"io/fs"
	"os"
	"path"
	"path/filepath"
	"sort"
	"syscall"
)

// ReadFile returns the bytes of a world file (no journal, no hook).
func (w *World) ReadFile(abs string) ([]byte, bool) {
	w.mu.Lock()
	defer w.mu.Unlock()
	n, _, err := w.walk(abs, true)
	if err != nil || n == nil || n.kind != kFile {
		return nil, false
	}
	return append([]byte{}, n.data...), true
}

// Exists reports whether a path exists (lstat semantics).
func (w *World) Exists(abs string) bool {
	w.mu.Lock()
	defer w.mu.Unlock()
	n, _, err := w.walk(abs, false)
	return err == nil && n != nil
}

// WriteFile is a set-up helper: creates/overwrites a file without journal or hook.
func (w *World) WriteFile(abs string, data []byte, exec bool) {
	w.mu.Lock()
	defer w.mu.Unlock()
	abs = path.Clean("/" + abs)
	w.mkdirAllLocked(path.Dir(abs), nil)
	_, _, parent, leaf, err := w.walkParent(abs, true, 0)
	if err != nil || parent == nil {
		panic(fmt.Sprintf("mcfs.WriteFile %s: %v", abs, err))
	}
	n := w.newInode(kFile, 0o644)
	if exec {
		n.mode = 0o755
	}
	n.data = append([]byte{}, data...)
	n.wclosed = true
	n.mtime = w.clock
	parent.children[leaf] = n
}

// SymlinkSetup creates a symlink without journal or hook.
func (w *World) SymlinkSetup(target, abs string) {
	w.mu.Lock()
	defer w.mu.Unlock()
	abs = path.Clean("/" + abs)
	w.mkdirAllLocked(path.Dir(abs), nil)
	_, _, parent, leaf, err := w.walkParent(abs, false, 0)
	if err != nil || parent == nil {
		panic(fmt.Sprintf("mcfs.SymlinkSetup %s: %v", abs, err))
	}
	n := w.newInode(kLink, 0o777)
	n.target = target
	parent.children[leaf] = n
}

// MkdirSetup creates directories without journal or hook.
func (w *World) MkdirSetup(abs string) {
	w.mu.Lock()
	w.mkdirAllLocked(path.Clean("/"+abs), nil)
	w.mu.Unlock()
}

// RemoveSetup removes a tree without journal or hook.
func (w *World) RemoveSetup(abs string) {
	w.mu.Lock()
	defer w.mu.Unlock()
	n, _, parent, leaf, err := w.walkParent(path.Clean("/"+abs), false, 0)
	if err == nil && n != nil && parent != nil {
		delete(parent.children, leaf)
	}
}

// AdvanceClock moves the logical clock (set-up helper).
func (w *World) AdvanceClock(ticks int64) { w.mu.Lock(); w.clock += ticks; w.mu.Unlock() }

// Touch sets the mtime of a path to the current clock (set-up helper).
func (w *World) Touch(abs string, tick int64) {
	w.mu.Lock()
	defer w.mu.Unlock()
	if n, _, err := w.walk(abs, true); err == nil && n != nil {
		n.mtime = tick
	}
}

// Clock returns the current logical time.
func (w *World) Clock() int64 { w.mu.Lock(); defer w.mu.Unlock(); return w.clock }

// Entry is one node of a listing.
type Entry struct {
	Path   string
	Kind   string // file dir link
	Data   []byte
	Target string
	Exec   bool
}

// List returns every node under abs (paths relative to abs), sorted.
func (w *World) List(abs string) []Entry {
	w.mu.Lock()
	defer w.mu.Unlock()
	n, _, err := w.walk(abs, true)
	if err != nil || n == nil {
		return nil
	}
	var out []Entry
	var rec func(p string, n *inode)
	rec = func(p string, n *inode) {
		switch n.kind {
		case kFile:
			out = append(out, Entry{Path: p, Kind: "file", Data: append([]byte{}, n.data...), Exec: n.mode&0o100 != 0})
		case kLink:
			out = append(out, Entry{Path: p, Kind: "link", Target: n.target})
		case kDir:
			if p != "" {
				out = append(out, Entry{Path: p, Kind: "dir"})
			}
			names := make([]string, 0, len(n.children))
			for k := range n.children {
				names = append(names, k)
			}
			sort.Strings(names)
			for _, k := range names {
				if p == "" {
					rec(k, n.children[k])
				} else {
					rec(p+"/"+k, n.children[k])
				}
			}
		}
	}
	rec("", n)
	return out
}

// Dump exports the tree under abs into the real directory dir.
func (w *World) Dump(abs, dir string) error {
	if err := os.MkdirAll(dir, 0o755); err != nil {
		return err
	}
	for _, e := range w.List(abs) {
		p := filepath.Join(dir, filepath.FromSlash(e.Path))
		switch e.Kind {
		case "dir":
			if err := os.MkdirAll(p, 0o755); err != nil {
				return err
			}
		case "link":
			os.MkdirAll(filepath.Dir(p), 0o755)
			if err := os.Symlink(e.Target, p); err != nil {
				return err
			}
		case "file":
			os.MkdirAll(filepath.Dir(p), 0o755)
			m := fs.FileMode(0o644)
			if e.Exec {
				m = 0o755
			}
			if err := os.WriteFile(p, e.Data, m); err != nil {
				return err
			}
		}
	}
	return nil
}

// Import copies a real directory into the world at abs (set-up, unjournaled).
func (w *World) Import(dir, abs string) error {
	w.MkdirSetup(abs)
	return filepath.Walk(dir, func(p string, fi os.FileInfo, err error) error {
		if err != nil {
			return err
		}
		rel, _ := filepath.Rel(dir, p)
		if rel == "." {
			return nil
		}
		dst := path.Join(abs, filepath.ToSlash(rel))
		switch {
		case fi.Mode()&os.ModeSymlink != 0:
			t, err := os.Readlink(p)
			if err != nil {
				return err
			}
			w.SymlinkSetup(t, dst)
		case fi.IsDir():
			w.MkdirSetup(dst)
		case fi.Mode().IsRegular():
			b, err := os.ReadFile(p)
			if err != nil {
				return err
			}
			w.WriteFile(dst, b, fi.Mode()&0o100 != 0)
		}
		return nil
	})
}

// Apply replays mutating journal records (as recorded on a world that started
// from the same state this clone started from) WITHOUT running any client
// code: used to synthesise crash states. tornLast >= 0 truncates the payload of
// the final record (a torn write) to that many bytes.
func (w *World) Apply(recs []*Op, tornLast int) error {
	w.mu.Lock()
	defer w.mu.Unlock()
	byIno := map[int]*inode{}
	var index func(n *inode)
	index = func(n *inode) {
		byIno[n.ino] = n
		for _, c := range n.children {
			index(c)
		}
	}
	index(w.root)
	for i, r := range recs {
		if !r.Mutating || r.Err != "" {
			continue
		}
		last := i == len(recs)-1
		switch r.Kind {
		case "create":
			_, _, parent, leaf, err := w.walkParent(r.Path, false, 0)
			if err != nil || parent == nil {
				return fmt.Errorf("apply create %s: %v", r.Path, err)
			}
			n := &inode{ino: r.Ino, kind: kFile, mode: r.Mode & 0o777 &^ 0o022, nlink: 1}
			if w.nextIno < r.Ino {
				w.nextIno = r.Ino
			}
			parent.children[leaf] = n
			byIno[n.ino] = n
			w.tick(n)
		case "open-trunc":
			n := byIno[r.Ino]
			if n == nil {
				return fmt.Errorf("apply trunc: ino %d missing", r.Ino)
			}
			n.data = nil
			w.tick(n)
		case "mkdir":
			_, _, parent, leaf, err := w.walkParent(r.Path, false, 0)
			if err != nil || parent == nil {
				return fmt.Errorf("apply mkdir %s: %v", r.Path, err)
			}
			n := &inode{ino: r.Ino, kind: kDir, mode: 0o755, nlink: 1, children: map[string]*inode{}}
			if w.nextIno < r.Ino {
				w.nextIno = r.Ino
			}
			parent.children[leaf] = n
			byIno[n.ino] = n
			w.tick(n)
		case "write":
			n := byIno[r.Ino]
			if n == nil {
				return fmt.Errorf("apply write: ino %d missing", r.Ino)
			}
			d := r.Data
			if last && tornLast >= 0 && tornLast < len(d) {
				d = d[:tornLast]
			}
			w.writeLocked(n, r.Off, d)
		case "truncate":
			n := byIno[r.Ino]
			if n == nil {
				return fmt.Errorf("apply truncate: ino %d missing", r.Ino)
			}
			if r.Size < int64(len(n.data)) {
				n.data = append([]byte{}, n.data[:r.Size]...)
			} else {
				nd := make([]byte, r.Size)
				copy(nd, n.data)
				n.data = nd
			}
			w.tick(n)
		case "rename":
			if err := w.renameLocked(r.Path, r.Path2, nil); err != nil {
				return fmt.Errorf("apply rename %s -> %s: %v", r.Path, r.Path2, err)
			}
		case "remove":
			n, _, parent, leaf, err := w.walkParent(r.Path, false, 0)
			if err != nil || n == nil || parent == nil {
				return fmt.Errorf("apply remove %s: %v", r.Path, err)
			}
			delete(parent.children, leaf)
			w.tick(nil)
		case "symlink":
			_, _, parent, leaf, err := w.walkParent(r.Path, false, 0)
			if err != nil || parent == nil {
				return fmt.Errorf("apply symlink %s: %v", r.Path, err)
			}
			n := &inode{ino: r.Ino, kind: kLink, mode: 0o777, nlink: 1, target: r.Path2}
			parent.children[leaf] = n
			byIno[n.ino] = n
			w.tick(n)
		case "chmod":
			n := byIno[r.Ino]
			if n == nil {
				return fmt.Errorf("apply chmod: ino %d missing", r.Ino)
			}
			n.mode = r.Mode & 0o777
		default:
			return fmt.Errorf("apply: unknown mutating op %q", r.Kind)
		}
	}
	return nil
}

// ErrIO, ErrNoSpace, ErrAccess are the injectable failures.
var (
	ErrIO      error = syscall.EIO
	ErrNoSpace error = syscall.ENOSPC
	ErrAccess  error = syscall.EACCES
)

// Resolve returns the physical path abs resolves to (following symlinks), or
// abs itself when it cannot be resolved.
func (w *World) Resolve(abs string) string {
	w.mu.Lock()
	defer w.mu.Unlock()
	_, p, err := w.walk(abs, true)
	if err != nil {
		return abs
	}
	return p
}

// Mtime returns the logical mtime of a path (set-up helper).
func (w *World) Mtime(abs string) int64 {
	w.mu.Lock()
	defer w.mu.Unlock()
	if n, _, err := w.walk(abs, true); err == nil && n != nil {
		return n.mtime
	}
	return 0
}

module verifmc

go 1.26.0

require github.com/go-git/go-git/v6 v6.0.0

replace github.com/go-git/go-git/v6 => /repo

module verifmc

go 1.26.0

require (
	github.com/go-git/go-billy/v6 v6.0.0-alpha.2
	github.com/go-git/go-git/v6 v6.0.0
)

require golang.org/x/sys v0.47.0 // indirect

replace github.com/go-git/go-git/v6 => /repo

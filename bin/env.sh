# sourced by bin/setup and bin/check
export GOFLAGS=-mod=mod GOPROXY=off GOSUMDB=off GOTOOLCHAIN=local CGO_ENABLED=0
export VERIF_DIR="${VERIF_DIR:-$(pwd)}"   # bin/setup and bin/check cd to their own tree first
export VERIF_REPO="${VERIF_REPO:-/repo}"
GO=go1.26
BUILD="$VERIF_DIR/.build"
mkdir -p "$BUILD"
# per-repo build dir so that a scratch copy (mutant run) never shares artefacts with /repo
RKEY=$(printf %s "$VERIF_REPO" | cksum | cut -d' ' -f1)
RB="$BUILD/r$RKEY"
mkdir -p "$RB"

prepare_mod() {
  # go.mod/go.sum used for the build: replace points at $VERIF_REPO
  sed "s#=> /repo#=> $VERIF_REPO#" "$VERIF_DIR/mc/go.mod" > "$RB/go.mod"
  cp "$VERIF_REPO/go.sum" "$RB/go.sum"
}

build_mkoverlay() {
  if [ ! -x "$BUILD/mkoverlay" ] || [ "$VERIF_DIR/mc/cmd/mkoverlay/main.go" -nt "$BUILD/mkoverlay" ]; then
    (cd "$VERIF_DIR/mc" && $GO build -modfile="$RB/go.mod" -o "$BUILD/mkoverlay" ./cmd/mkoverlay) || exit 2
  fi
}

# build_vcheck <mode>  (base|sched)
build_vcheck() {
  mode=$1
  "$BUILD/mkoverlay" -repo "$VERIF_REPO" -shim "$VERIF_DIR/shim" -out "$RB/overlay-$mode" -mode "$mode" || exit 2
  (cd "$VERIF_DIR/mc" && $GO build -modfile="$RB/go.mod" -tags verif -overlay "$RB/overlay-$mode/overlay.json" -o "$RB/vcheck-$mode" ./cmd/vcheck) || {
    echo "ENGINE-ERROR build failed (mode $mode)"; exit 2; }
}

//go:build verif

package git

import (
	"github.com/go-git/go-git/v6/plumbing"
	"github.com/go-git/go-git/v6/plumbing/storer"
)

// VerifIsFastForward exposes isFastForward (remote.go) to the C42 check.
func VerifIsFastForward(s storer.EncodedObjectStorer, old, newHash plumbing.Hash, shallows []plumbing.Hash) (bool, error) {
	return isFastForward(s, old, newHash, shallows)
}

//go:build verif

// Package vtime mirrors package time; AfterFunc/Timer become scheduler events
// that may fire at any point after arming (an over-approximation of real time,
// sound for safety properties). Everything else passes through.
package vtime

import (
	"sync/atomic"
	"time"

	"github.com/go-git/go-git/v6/x/verif/vsched"
)

type (
	Duration = time.Duration
	Time     = time.Time
	Month    = time.Month
	Weekday  = time.Weekday
	Location = time.Location
	Ticker   = time.Ticker
)

const (
	Nanosecond  = time.Nanosecond
	Microsecond = time.Microsecond
	Millisecond = time.Millisecond
	Second      = time.Second
	Minute      = time.Minute
	Hour        = time.Hour
	RFC3339     = time.RFC3339
	RFC1123Z    = time.RFC1123Z
)

var (
	Now       = time.Now
	Since     = time.Since
	Until     = time.Until
	Unix      = time.Unix
	Sleep     = time.Sleep
	After     = time.After
	NewTicker = time.NewTicker
	Parse     = time.Parse
	UTC       = time.UTC
	Local     = time.Local
	FixedZone = time.FixedZone
	Date      = time.Date
)

// Timer is a controllable timer.
type Timer struct {
	C    <-chan time.Time
	real *time.Timer
	f    func()
	st   atomic.Pointer[timerState]
}

type timerState struct{ stopped, fired atomic.Bool }

func (t *Timer) arm(d Duration) {
	st := &timerState{}
	t.st.Store(st)
	if !vsched.SpawnTimer("timer", func() bool { return st.stopped.Load() }, func() {
		st.fired.Store(true)
		t.f()
	}) {
		t.st.Store(nil)
		t.real = time.AfterFunc(d, t.f)
	}
}

// AfterFunc arms a timer. For a controlled thread the callback becomes a
// pseudo-thread the explorer may run at any later point.
func AfterFunc(d Duration, f func()) *Timer {
	t := &Timer{f: f}
	t.arm(d)
	return t
}

// NewTimer passes through (channel timers are not used by controlled code).
func NewTimer(d Duration) *Timer {
	r := time.NewTimer(d)
	return &Timer{C: r.C, real: r}
}

// Stop prevents the timer from firing; reports whether it stopped it.
func (t *Timer) Stop() bool {
	if t.real != nil {
		return t.real.Stop()
	}
	st := t.st.Load()
	if st == nil || st.fired.Load() {
		return false
	}
	return !st.stopped.Swap(true)
}

// Reset re-arms the timer.
func (t *Timer) Reset(d Duration) bool {
	if t.real != nil {
		return t.real.Reset(d)
	}
	active := t.Stop()
	t.arm(d)
	return active
}

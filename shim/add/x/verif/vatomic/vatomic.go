//go:build verif

// Package vatomic mirrors sync/atomic's typed values; every operation is a
// scheduling point of vsched for controlled threads.
package vatomic

import (
	"sync/atomic"

	"github.com/go-git/go-git/v6/x/verif/vsched"
)

type (
	Value          = atomic.Value
	Pointer[T any] = atomic.Pointer[T]
)

type Bool struct{ v atomic.Bool }

func (b *Bool) Load() bool                         { vsched.Yield("atomic.Bool.Load"); return b.v.Load() }
func (b *Bool) Store(x bool)                       { vsched.Yield("atomic.Bool.Store"); b.v.Store(x) }
func (b *Bool) Swap(x bool) bool                   { vsched.Yield("atomic.Bool.Swap"); return b.v.Swap(x) }
func (b *Bool) CompareAndSwap(o, n bool) bool      { vsched.Yield("atomic.Bool.CAS"); return b.v.CompareAndSwap(o, n) }

type Int32 struct{ v atomic.Int32 }

func (b *Int32) Load() int32                       { vsched.Yield("atomic.Int32.Load"); return b.v.Load() }
func (b *Int32) Store(x int32)                     { vsched.Yield("atomic.Int32.Store"); b.v.Store(x) }
func (b *Int32) Add(x int32) int32                 { vsched.Yield("atomic.Int32.Add"); return b.v.Add(x) }
func (b *Int32) Swap(x int32) int32                { vsched.Yield("atomic.Int32.Swap"); return b.v.Swap(x) }
func (b *Int32) CompareAndSwap(o, n int32) bool    { vsched.Yield("atomic.Int32.CAS"); return b.v.CompareAndSwap(o, n) }

type Int64 struct{ v atomic.Int64 }

func (b *Int64) Load() int64                       { vsched.Yield("atomic.Int64.Load"); return b.v.Load() }
func (b *Int64) Store(x int64)                     { vsched.Yield("atomic.Int64.Store"); b.v.Store(x) }
func (b *Int64) Add(x int64) int64                 { vsched.Yield("atomic.Int64.Add"); return b.v.Add(x) }
func (b *Int64) Swap(x int64) int64                { vsched.Yield("atomic.Int64.Swap"); return b.v.Swap(x) }
func (b *Int64) CompareAndSwap(o, n int64) bool    { vsched.Yield("atomic.Int64.CAS"); return b.v.CompareAndSwap(o, n) }

type Uint32 struct{ v atomic.Uint32 }

func (b *Uint32) Load() uint32                     { vsched.Yield("atomic.Uint32.Load"); return b.v.Load() }
func (b *Uint32) Store(x uint32)                   { vsched.Yield("atomic.Uint32.Store"); b.v.Store(x) }
func (b *Uint32) Add(x uint32) uint32              { vsched.Yield("atomic.Uint32.Add"); return b.v.Add(x) }
func (b *Uint32) Swap(x uint32) uint32             { vsched.Yield("atomic.Uint32.Swap"); return b.v.Swap(x) }
func (b *Uint32) CompareAndSwap(o, n uint32) bool  { vsched.Yield("atomic.Uint32.CAS"); return b.v.CompareAndSwap(o, n) }

type Uint64 struct{ v atomic.Uint64 }

func (b *Uint64) Load() uint64                     { vsched.Yield("atomic.Uint64.Load"); return b.v.Load() }
func (b *Uint64) Store(x uint64)                   { vsched.Yield("atomic.Uint64.Store"); b.v.Store(x) }
func (b *Uint64) Add(x uint64) uint64              { vsched.Yield("atomic.Uint64.Add"); return b.v.Add(x) }
func (b *Uint64) Swap(x uint64) uint64             { vsched.Yield("atomic.Uint64.Swap"); return b.v.Swap(x) }
func (b *Uint64) CompareAndSwap(o, n uint64) bool  { vsched.Yield("atomic.Uint64.CAS"); return b.v.CompareAndSwap(o, n) }

func AddInt32(p *int32, d int32) int32       { vsched.Yield("atomic.AddInt32"); return atomic.AddInt32(p, d) }
func AddInt64(p *int64, d int64) int64       { vsched.Yield("atomic.AddInt64"); return atomic.AddInt64(p, d) }
func AddUint32(p *uint32, d uint32) uint32   { vsched.Yield("atomic.AddUint32"); return atomic.AddUint32(p, d) }
func AddUint64(p *uint64, d uint64) uint64   { vsched.Yield("atomic.AddUint64"); return atomic.AddUint64(p, d) }
func LoadInt32(p *int32) int32               { vsched.Yield("atomic.LoadInt32"); return atomic.LoadInt32(p) }
func LoadInt64(p *int64) int64               { vsched.Yield("atomic.LoadInt64"); return atomic.LoadInt64(p) }
func LoadUint32(p *uint32) uint32            { vsched.Yield("atomic.LoadUint32"); return atomic.LoadUint32(p) }
func LoadUint64(p *uint64) uint64            { vsched.Yield("atomic.LoadUint64"); return atomic.LoadUint64(p) }
func StoreInt32(p *int32, v int32)           { vsched.Yield("atomic.StoreInt32"); atomic.StoreInt32(p, v) }
func StoreInt64(p *int64, v int64)           { vsched.Yield("atomic.StoreInt64"); atomic.StoreInt64(p, v) }
func StoreUint32(p *uint32, v uint32)        { vsched.Yield("atomic.StoreUint32"); atomic.StoreUint32(p, v) }
func StoreUint64(p *uint64, v uint64)        { vsched.Yield("atomic.StoreUint64"); atomic.StoreUint64(p, v) }
func CompareAndSwapInt32(p *int32, o, n int32) bool    { vsched.Yield("atomic.CASInt32"); return atomic.CompareAndSwapInt32(p, o, n) }
func CompareAndSwapInt64(p *int64, o, n int64) bool    { vsched.Yield("atomic.CASInt64"); return atomic.CompareAndSwapInt64(p, o, n) }
func CompareAndSwapUint32(p *uint32, o, n uint32) bool { vsched.Yield("atomic.CASUint32"); return atomic.CompareAndSwapUint32(p, o, n) }
func CompareAndSwapUint64(p *uint64, o, n uint64) bool { vsched.Yield("atomic.CASUint64"); return atomic.CompareAndSwapUint64(p, o, n) }

//go:build verif

// Package vsingleflight mirrors golang.org/x/sync/singleflight; waiting for a
// flight in progress is a scheduling point.
package vsingleflight

import (
	"sync"

	"github.com/go-git/go-git/v6/x/verif/vsched"
)

type call struct {
	done bool
	val  any
	err  error
	dups int
}

type Group struct {
	mu sync.Mutex
	m  map[string]*call
}

type Result struct {
	Val    any
	Err    error
	Shared bool
}

func (g *Group) Do(key string, fn func() (any, error)) (v any, err error, shared bool) {
	vsched.Yield("singleflight.Do")
	g.mu.Lock()
	if g.m == nil {
		g.m = map[string]*call{}
	}
	if c, ok := g.m[key]; ok {
		c.dups++
		g.mu.Unlock()
		if !vsched.PointWhen("singleflight.wait", func() bool { g.mu.Lock(); defer g.mu.Unlock(); return c.done }) {
			for { // foreign goroutine: spin politely
				g.mu.Lock()
				d := c.done
				g.mu.Unlock()
				if d {
					break
				}
				sleepABit()
			}
		}
		return c.val, c.err, true
	}
	c := &call{}
	g.m[key] = c
	g.mu.Unlock()
	func() {
		defer func() {
			g.mu.Lock()
			c.done = true
			delete(g.m, key)
			g.mu.Unlock()
		}()
		c.val, c.err = fn()
	}()
	return c.val, c.err, c.dups > 0
}

func (g *Group) Forget(key string) {
	g.mu.Lock()
	delete(g.m, key)
	g.mu.Unlock()
}

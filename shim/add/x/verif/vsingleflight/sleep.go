//go:build verif

package vsingleflight

import "time"

func sleepABit() { time.Sleep(50 * time.Microsecond) }

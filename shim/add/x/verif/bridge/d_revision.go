//go:build verif

package bridge

import (
	"io"

	"github.com/go-git/go-git/v6/internal/revision"
)

// RevisionParse re-exports internal/revision: NewParser(r).Parse(); returns
// the number of revisioner chunks.
func RevisionParse(r io.Reader) (int, error) {
	rs, err := revision.NewParser(r).Parse()
	return len(rs), err
}

//go:build verif

package bridge

import (
	"github.com/go-git/go-git/v6/internal/sharedfile"
)

type (
	SharedFile   = sharedfile.SharedFile
	ReadAtCloser = sharedfile.ReadAtCloser
)

var (
	NewSharedFile         = sharedfile.New
	NewSharedFileWithPool = sharedfile.NewWithPool
	ErrSharedFileClosed   = sharedfile.ErrClosed
)

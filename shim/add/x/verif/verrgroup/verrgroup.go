//go:build verif

// Package verrgroup mirrors golang.org/x/sync/errgroup with controlled goroutines.
package verrgroup

import (
	"context"
	"sync"

	"github.com/go-git/go-git/v6/x/verif/vsched"
	"github.com/go-git/go-git/v6/x/verif/vsync"
)

type Group struct {
	cancel  func(error)
	wg      vsync.WaitGroup
	errOnce sync.Once
	err     error
	mu      sync.Mutex
	limit   int
	active  int
}

func WithContext(ctx context.Context) (*Group, context.Context) {
	ctx, cancel := context.WithCancelCause(ctx)
	return &Group{cancel: cancel}, ctx
}

func (g *Group) SetLimit(n int) { g.limit = n }

func (g *Group) Wait() error {
	g.wg.Wait()
	if g.cancel != nil {
		g.cancel(g.err)
	}
	return g.err
}

func (g *Group) Go(f func() error) {
	if g.limit > 0 {
		vsched.PointWhen("errgroup.limit", func() bool { g.mu.Lock(); defer g.mu.Unlock(); return g.active < g.limit })
	}
	g.mu.Lock()
	g.active++
	g.mu.Unlock()
	g.wg.Add(1)
	vsched.SpawnFromThread("errgroup.Go", func() {
		defer func() {
			g.mu.Lock()
			g.active--
			g.mu.Unlock()
			g.wg.Done()
		}()
		if err := f(); err != nil {
			g.errOnce.Do(func() {
				g.err = err
				if g.cancel != nil {
					g.cancel(g.err)
				}
			})
		}
	})
}

func (g *Group) TryGo(f func() error) bool {
	g.mu.Lock()
	if g.limit > 0 && g.active >= g.limit {
		g.mu.Unlock()
		return false
	}
	g.mu.Unlock()
	g.Go(f)
	return true
}

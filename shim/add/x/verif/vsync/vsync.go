//go:build verif

// Package vsync mirrors the parts of package sync go-git uses; Lock-type
// operations are scheduling points of vsched for controlled threads and plain
// sync operations for everybody else.
package vsync

import (
	"sync"
	"sync/atomic"

	"github.com/go-git/go-git/v6/x/verif/vsched"
)

type (
	Pool   = sync.Pool
	Locker = sync.Locker
	Map    = sync.Map
	Cond   = sync.Cond
)

func NewCond(l Locker) *Cond { return sync.NewCond(l) }

// Mutex is a scheduling-point mutex.
type Mutex struct {
	real sync.Mutex
	held atomic.Bool
}

func (m *Mutex) Lock() {
	vsched.PointWhen("Mutex.Lock", func() bool { return !m.held.Load() })
	m.real.Lock()
	m.held.Store(true)
}

func (m *Mutex) TryLock() bool {
	vsched.Yield("Mutex.TryLock")
	if m.real.TryLock() {
		m.held.Store(true)
		return true
	}
	return false
}

func (m *Mutex) Unlock() {
	m.held.Store(false)
	m.real.Unlock()
}

// RWMutex is a scheduling-point reader/writer mutex.
type RWMutex struct {
	real    sync.RWMutex
	writer  atomic.Bool
	readers atomic.Int32
}

func (m *RWMutex) Lock() {
	vsched.PointWhen("RWMutex.Lock", func() bool { return !m.writer.Load() && m.readers.Load() == 0 })
	m.real.Lock()
	m.writer.Store(true)
}

func (m *RWMutex) Unlock() {
	m.writer.Store(false)
	m.real.Unlock()
}

func (m *RWMutex) RLock() {
	vsched.PointWhen("RWMutex.RLock", func() bool { return !m.writer.Load() })
	m.real.RLock()
	m.readers.Add(1)
}

func (m *RWMutex) RUnlock() {
	m.readers.Add(-1)
	m.real.RUnlock()
}

func (m *RWMutex) TryLock() bool {
	vsched.Yield("RWMutex.TryLock")
	if m.real.TryLock() {
		m.writer.Store(true)
		return true
	}
	return false
}

func (m *RWMutex) TryRLock() bool {
	vsched.Yield("RWMutex.TryRLock")
	if m.real.TryRLock() {
		m.readers.Add(1)
		return true
	}
	return false
}

func (m *RWMutex) RLocker() Locker { return rlocker{m} }

type rlocker struct{ m *RWMutex }

func (r rlocker) Lock()   { r.m.RLock() }
func (r rlocker) Unlock() { r.m.RUnlock() }

// Once: a finished Once is stable, so Do on it is not a scheduling point.
type Once struct {
	m    Mutex
	done atomic.Bool
}

func (o *Once) Do(f func()) {
	if o.done.Load() {
		return
	}
	o.m.Lock()
	defer o.m.Unlock()
	if !o.done.Load() {
		defer o.done.Store(true)
		f()
	}
}

func OnceFunc(f func()) func() {
	var o Once
	return func() { o.Do(f) }
}

func OnceValue[T any](f func() T) func() T {
	var o Once
	var v T
	return func() T {
		o.Do(func() { v = f() })
		return v
	}
}

func OnceValues[T1, T2 any](f func() (T1, T2)) func() (T1, T2) {
	var o Once
	var v1 T1
	var v2 T2
	return func() (T1, T2) {
		o.Do(func() { v1, v2 = f() })
		return v1, v2
	}
}

// WaitGroup: Wait is a point enabled when the counter is zero.
type WaitGroup struct {
	real sync.WaitGroup
	n    atomic.Int64
}

func (w *WaitGroup) Add(d int) { w.n.Add(int64(d)); w.real.Add(d) }
func (w *WaitGroup) Done()     { w.n.Add(-1); w.real.Done() }
func (w *WaitGroup) Wait() {
	vsched.PointWhen("WaitGroup.Wait", func() bool { return w.n.Load() == 0 })
	w.real.Wait()
}
func (w *WaitGroup) Go(f func()) {
	w.Add(1)
	vsched.SpawnFromThread("wg.Go", func() { defer w.Done(); f() })
}

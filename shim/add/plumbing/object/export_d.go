//go:build verif

package object

// VerifParseSignedBytes exports parseSignedBytes (signature armor scanner).
func VerifParseSignedBytes(b []byte) (int, int) {
	n, t := parseSignedBytes(b)
	return n, int(t)
}

//go:build verif

package ssh

import "github.com/go-git/go-git/v6/plumbing/transport"

// VerifBuildCommand exposes buildCommand (the command line sent to the SSH
// server) to the verification harness. Wrapper only.
func VerifBuildCommand(req *transport.Request) string { return buildCommand(req) }
